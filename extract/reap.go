package main

// Translation of three pieces of pkg/controller/scale_down.go into Lean (same translator as arith.go / decide.go):
//   * the body of the loop of TryRemoveTaintedNodes       -> Gen.reapAppend  ("is this candidate handed to TryDeleteNodes?")
//   * the body of the loop of TryRemoveForceTaintedNodes  -> Gen.forceAppend
//   * the clamp at the head of scaleDownTaint             -> Gen.taintClamp  (number of nodes to taint, or the error)
// proved equal to the model (reaperCands / forceCands / clampRemove) and restated as C01 / C10 / C11 / C03 facts in
// EscProofs/P/GenReap.lean.

import (
	"fmt"
	"go/ast"
	"go/token"
	"path/filepath"
	"strconv"
	"strings"
)

var inertCalls = []string{"nodeGroup.cpuCapacity.", "nodeGroup.memCapacity.", "len", "fmt.", "log.", "time.Now", "time.Since", "k8s.NodePodsRemaining", "now.Sub", "opts.nodeGroup.Opts."}

func callsAllowed(e ast.Expr) bool {
	ok := true
	ast.Inspect(e, func(x ast.Node) bool {
		c, isCall := x.(*ast.CallExpr)
		if !isCall {
			return true
		}
		fn := srcOf(c.Fun)
		allowed := false
		for _, p := range inertCalls {
			if strings.HasPrefix(fn, p) {
				allowed = true
			}
		}
		if !allowed {
			ok = false
		}
		return true
	})
	return ok
}

// shallowInert: the statement only logs, declares, or assigns locals from allow-listed calls (nothing that decides)
func shallowInert(s ast.Stmt, tracked map[string]bool) bool {
	switch v := s.(type) {
	case nil:
		return true
	case *ast.ExprStmt:
		return isLogStmt(s) || strings.HasPrefix(srcOf(v.X), "metrics.")
	case *ast.DeclStmt:
		// `var x bool` is translated (it starts as false); every other declaration is skipped
		if gd, ok := v.Decl.(*ast.GenDecl); ok {
			for _, sp := range gd.Specs {
				if vs, ok := sp.(*ast.ValueSpec); ok && vs.Type != nil && srcOf(vs.Type) == "bool" {
					return false
				}
			}
		}
		return true
	case *ast.AssignStmt:
		for _, l := range v.Lhs {
			id, ok := l.(*ast.Ident)
			if !ok || tracked[id.Name] {
				return false
			}
		}
		for _, r := range v.Rhs {
			if !callsAllowed(r) {
				return false
			}
		}
		return true
	case *ast.BlockStmt:
		for _, x := range v.List {
			if !shallowInert(x, tracked) {
				return false
			}
		}
		return true
	case *ast.RangeStmt:
		// a loop that only logs / tallies into untracked locals (`continue` and `break` inside it stay inside it)
		if !callsAllowed(v.X) {
			return false
		}
		for _, x := range v.Body.List {
			if br, ok := x.(*ast.BranchStmt); ok && br.Label == nil && (br.Tok == token.CONTINUE || br.Tok == token.BREAK) {
				continue
			}
			if is, ok := x.(*ast.IfStmt); ok && is.Init == nil && is.Else == nil && callsAllowed(is.Cond) {
				allBr := true
				for _, y := range is.Body.List {
					if br, ok := y.(*ast.BranchStmt); !(ok && br.Label == nil && (br.Tok == token.CONTINUE || br.Tok == token.BREAK)) && !shallowInert(y, tracked) {
						allBr = false
					}
				}
				if allBr {
					continue
				}
			}
			if !shallowInert(x, tracked) {
				return false
			}
		}
		return true
	case *ast.IfStmt:
		if v.Init != nil && !shallowInert(v.Init, tracked) {
			return false
		}
		if !callsAllowed(v.Cond) || !shallowInert(v.Body, tracked) {
			return false
		}
		return v.Else == nil || shallowInert(v.Else, tracked)
	}
	return false
}

// identsOf collects the identifiers an expression / statement reads, not descending into sub-expressions that are atoms
// of the translation (their meaning is a parameter of the generated definition, whatever locals they mention)
func (a *ar) identsOf(n ast.Node, into map[string]bool) {
	ast.Inspect(n, func(x ast.Node) bool {
		if e, ok := x.(ast.Expr); ok {
			if _, isAtom := a.atoms[srcOf(e)]; isAtom {
				return false
			}
		}
		if id, ok := x.(*ast.Ident); ok {
			into[id.Name] = true
		}
		return true
	})
}

func definedBy(s ast.Stmt) (names map[string]bool, allDefine bool) {
	names, allDefine = map[string]bool{}, true
	_, simple := s.(*ast.AssignStmt)
	ast.Inspect(s, func(x ast.Node) bool {
		if as, ok := x.(*ast.AssignStmt); ok {
			if as.Tok != token.DEFINE {
				allDefine = false
			} else if !simple {
				// `:=` inside a compound statement (a loop body, an if) declares a variable of that inner scope: it cannot be the one a
				// statement outside reads
				return true
			}
			for _, l := range as.Lhs {
				if id, ok := l.(*ast.Ident); ok {
					names[id.Name] = true
				}
			}
		}
		return true
	})
	if !simple {
		allDefine = false
	}
	return
}

// deciding: identifiers read by the deciding statements of ss (conditions of non-inert ifs, switches, returns — but not the
// error handed back last —, non-inert assignments), nested blocks included
func (a *ar) deciding(ss []ast.Stmt, tracked map[string]bool, into map[string]bool) {
	for _, s := range ss {
		if shallowInert(s, tracked) {
			continue
		}
		if as, ok := s.(*ast.AssignStmt); ok {
			if lines, isAtom := a.assignAtoms[srcOfNode(as)]; isAtom {
				// its meaning is given by the translation table: what it reads is what the Lean text given there reads
				for _, tok := range strings.FieldsFunc(lines, func(r rune) bool {
					return !(r == '_' || (r >= 'a' && r <= 'z') || (r >= 'A' && r <= 'Z') || (r >= '0' && r <= '9'))
				}) {
					into[tok] = true
				}
				continue
			}
		}
		switch v := s.(type) {
		case *ast.IfStmt:
			if v.Init != nil {
				a.identsOf(v.Init, into)
			}
			a.identsOf(v.Cond, into)
			a.deciding(v.Body.List, tracked, into)
			switch e := v.Else.(type) {
			case *ast.BlockStmt:
				a.deciding(e.List, tracked, into)
			case *ast.IfStmt:
				a.deciding([]ast.Stmt{e}, tracked, into)
			}
		case *ast.BlockStmt:
			a.deciding(v.List, tracked, into)
		case *ast.ReturnStmt:
			rs := v.Results
			if len(rs) > 1 {
				rs = rs[:len(rs)-1]
			}
			for _, r := range rs {
				a.identsOf(r, into)
			}
		default:
			a.identsOf(s, into)
		}
	}
}

// markInert fills a.inertOK for every statement under body that can be skipped: shallow-inert, and assigning nothing that a
// deciding statement reads — a later sibling (with what it contains) for `:=`, any statement of the body for `=`.
func (a *ar) markInert(body []ast.Stmt, tracked map[string]bool) {
	a.inertOK = map[ast.Stmt]bool{}
	global := map[string]bool{}
	a.deciding(body, tracked, global)
	var mark func(ss []ast.Stmt)
	mark = func(ss []ast.Stmt) {
		for i, s := range ss {
			if shallowInert(s, tracked) {
				names, allDefine := definedBy(s)
				readers := global
				if allDefine {
					readers = map[string]bool{}
					a.deciding(ss[i+1:], tracked, readers)
				}
				clash := false
				for n := range names {
					if readers[n] {
						clash = true
					}
				}
				if !clash {
					a.inertOK[s] = true
					continue
				}
			}
			switch v := s.(type) {
			case *ast.IfStmt:
				mark(v.Body.List)
				switch e := v.Else.(type) {
				case *ast.BlockStmt:
					mark(e.List)
				case *ast.IfStmt:
					mark([]ast.Stmt{e})
				}
			case *ast.BlockStmt:
				mark(v.List)
			}
		}
	}
	mark(body)
}

// rangeOver: the first `for _, x := range <src>` of the function; returns the statements before it, the loop variable, the body
func rangeOver(fd *ast.FuncDecl, src string) (pre []ast.Stmt, loopVar string, body []ast.Stmt) {
	if fd == nil || fd.Body == nil {
		return nil, "", nil
	}
	for i, s := range fd.Body.List {
		if rs, ok := s.(*ast.RangeStmt); ok && srcOf(rs.X) == src && rs.Value != nil {
			return fd.Body.List[:i], srcOf(rs.Value), rs.Body.List
		}
	}
	return nil, "", nil
}

// genClassify: the loop body of Controller.filterNodes -> Gen.classifyNode (which of the four lists a node is appended to)
func genClassify(repo, out string) {
	ct := parse(filepath.Join(repo, "pkg/controller/controller.go"))
	var b strings.Builder
	b.WriteString("/- GENERATED by /verif/extract from /repo/pkg/controller/controller.go (filterNodes) — do not edit. -/\nimport Esc.Gen.Arith\nnamespace Esc.Gen\n\n")
	a := &ar{fn: "loopBody", appendCodes: map[string]int{"untaintedNodes": 1, "taintedNodes": 2, "forceTaintedNodes": 3, "cordonedNodes": 4}}
	body := "  0 -- loop not found"
	_, x, lb := rangeOver(findFunc(ct, "filterNodes"), "allNodes")
	if lb != nil {
		a.atoms = map[string][2]string{"c.dryMode(nodeGroup)": {"dry", "B"}, x + ".Spec.Unschedulable": {"unschedulable", "B"}}
		a.callAtoms = map[string][][2]string{
			"k8s.GetToBeForceRemovedTaint(" + x + ")": {{"", ""}, {"hasForce", "B"}},
			"k8s.GetToBeRemovedTaint(" + x + ")":      {{"", ""}, {"hasEsc", "B"}},
		}
		a.containsAtoms = map[string]string{"nodeGroup.taintTracker": "inTaintTracker", "nodeGroup.forceTaintTracker": "inForceTracker"}
		a.markInert(lb, map[string]bool{"untaintedNodes": true, "taintedNodes": true, "forceTaintedNodes": true, "cordonedNodes": true})
		body = "  let appended_ : Nat := 0\n" + a.block(lb, env{}, "  ")
	} else {
		a.unknown++
	}
	b.WriteString("/-- One iteration of the loop of `filterNodes`: the list the node is appended to (1 untainted, 2 tainted, 3 force-tainted,\n    4 cordoned, 0 none). `inTaintTracker` / `inForceTracker`: the dry-mode trackers contain the node's name; `hasForce` / `hasEsc`:\n    `GetToBeForceRemovedTaint` / `GetToBeRemovedTaint` find the taint. -/\n")
	b.WriteString("def classifyNode (dry inTaintTracker inForceTracker unschedulable hasForce hasEsc : Bool) : Nat :=\n" + body + "\n\n")
	fmt.Fprintf(&b, "def numClassifyUnknown : Nat := %d\n\nend Esc.Gen\n", a.unknown)
	writeIfChanged(filepath.Join(out, "Classify.lean"), b.String())
}

// genAwsGuards: the decision heads of aws.NodeGroup.IncreaseSize and DeleteNodes (pkg/cloudprovider/aws/aws.go)
func genAwsGuards(repo, out string) {
	aw := parse(filepath.Join(repo, "pkg/cloudprovider/aws/aws.go"))
	var b strings.Builder
	b.WriteString("/- GENERATED by /verif/extract from /repo/pkg/cloudprovider/aws/aws.go — do not edit. -/\nimport Esc.Gen.Arith\nnamespace Esc.Gen\n\n")
	b.WriteString("/-! Results are (kind, argument): (0, 0) an error is returned before any AWS call; (1, d) `setASGDesiredSizeOneShot(d)`;\n    (2, v) `setASGDesiredSize(v)`; (3, 0) the guards are passed (the function goes on). -/\n\n")
	total := 0
	method := func(name string) *ast.FuncDecl {
		for _, d := range aw.Decls {
			if fd, ok := d.(*ast.FuncDecl); ok && fd.Name.Name == name && fd.Recv != nil && len(fd.Recv.List) == 1 && strings.Contains(srcOf(fd.Recv.List[0].Type), "NodeGroup") {
				return fd
			}
		}
		return nil
	}
	recvName := func(fd *ast.FuncDecl) string {
		if len(fd.Recv.List[0].Names) > 0 {
			return fd.Recv.List[0].Names[0].Name
		}
		return "n"
	}
	{
		a := &ar{fn: "awsGuard"}
		body := "  ((0 : Int), (0 : Int)) -- not found"
		fd := method("IncreaseSize")
		if fd != nil && fd.Body != nil && fd.Type.Params != nil && len(fd.Type.Params.List) == 1 && len(fd.Type.Params.List[0].Names) == 1 {
			n := recvName(fd)
			d := fd.Type.Params.List[0].Names[0].Name
			a.atoms = map[string][2]string{n + ".TargetSize()": {"target", "I"}, n + ".MaxSize()": {"max", "I"}, n + ".canScaleInOneShot()": {"oneShot", "B"}, d: {"delta", "I"}}
			a.markInert(fd.Body.List, map[string]bool{})
			body = a.block(fd.Body.List, env{}, "  ")
		} else {
			a.unknown++
		}
		b.WriteString("/-- `NodeGroup.IncreaseSize`: what it does with a delta, given the cached desired size and maximum of the ASG. -/\n")
		b.WriteString("def increaseSize (delta target max : Int) (oneShot : Bool) : Int × Int :=\n" + body + "\n\n")
		total += a.unknown
	}
	{
		a := &ar{fn: "awsGuard"}
		body := "  ((0 : Int), (0 : Int)) -- not found"
		fd := method("DeleteNodes")
		var pre []ast.Stmt
		if fd != nil && fd.Body != nil {
			for i, s := range fd.Body.List {
				if _, ok := s.(*ast.RangeStmt); ok {
					pre = fd.Body.List[:i]
					break
				}
			}
		}
		if pre != nil && fd.Type.Params != nil && len(fd.Type.Params.List) == 1 && len(fd.Type.Params.List[0].Names) == 1 {
			n := recvName(fd)
			xs := fd.Type.Params.List[0].Names[0].Name
			a.atoms = map[string][2]string{n + ".TargetSize()": {"target", "I"}, n + ".MinSize()": {"min", "I"}, "int64(len(" + xs + "))": {"count", "I"}}
			ss := append(append([]ast.Stmt{}, pre...), &ast.ReturnStmt{Results: []ast.Expr{ast.NewIdent("nil")}})
			a.markInert(ss, map[string]bool{})
			body = a.block(ss, env{}, "  ")
		} else {
			a.unknown++
		}
		b.WriteString("/-- The guards of `NodeGroup.DeleteNodes` in front of its loop, for `count` nodes. -/\n")
		b.WriteString("def deleteGuard (target min count : Int) : Int × Int :=\n" + body + "\n\n")
		total += a.unknown
	}
	fmt.Fprintf(&b, "def numAwsUnknown : Nat := %d\n\nend Esc.Gen\n", total)
	writeIfChanged(filepath.Join(out, "AwsGuards.lean"), b.String())
}

// genLock: the three methods of scaleLock (pkg/controller/scale_lock.go) as functions of the lock's fields
func genLock(repo, out string) {
	f := parse(filepath.Join(repo, "pkg/controller/scale_lock.go"))
	meth := map[string]*ast.FuncDecl{}
	recv := map[string]string{}
	for _, d := range f.Decls {
		if fd, ok := d.(*ast.FuncDecl); ok && fd.Recv != nil && len(fd.Recv.List) == 1 && strings.Contains(srcOf(fd.Recv.List[0].Type), "scaleLock") {
			meth[fd.Name.Name] = fd
			if len(fd.Recv.List[0].Names) > 0 {
				recv[fd.Name.Name] = fd.Recv.List[0].Names[0].Name
			}
		}
	}
	var b strings.Builder
	b.WriteString("/- GENERATED by /verif/extract from /repo/pkg/controller/scale_lock.go — do not edit. -/\nimport Esc.Gen.Arith\nnamespace Esc.Gen\n\n")
	total := 0
	mk := func(name, fn, endExpr string, envInit env, extraAtoms func(l string) map[string][2]string) (string, int) {
		fd := meth[name]
		if fd == nil || fd.Body == nil {
			return "  " + endExpr + " -- method not found", 1
		}
		l := recv[name]
		a := &ar{fn: fn, endExpr: endExpr}
		a.fieldVars = map[string]string{l + ".isLocked": "isLocked", l + ".requestedNodes": "requested", l + ".lockTime": "lockTime"}
		a.atoms = map[string][2]string{"time.Since(" + l + ".lockTime)": {"since", "I"}, l + ".minimumLockDuration": {"dur", "I"}, "time.Now()": {"now", "I"}}
		for k, v := range extraAtoms(l) {
			a.atoms[k] = v
		}
		a.splice = map[string][]ast.Stmt{}
		if u := meth["unlock"]; u != nil && u.Body != nil && name != "unlock" {
			hasReturn := false
			ast.Inspect(u.Body, func(x ast.Node) bool {
				if _, ok := x.(*ast.ReturnStmt); ok {
					hasReturn = true
				}
				return true
			})
			if !hasReturn && recv["unlock"] == l {
				a.splice[l+".unlock()"] = u.Body.List
			}
		}
		all := append([]ast.Stmt{}, fd.Body.List...)
		for _, sp := range a.splice {
			all = append(all, sp...)
		}
		a.markInert(all, map[string]bool{})
		return a.block(fd.Body.List, envInit, "  "), a.unknown
	}
	none := func(string) map[string][2]string { return map[string][2]string{} }
	body, u := mk("locked", "lockedFn", "", env{"isLocked": kB, "requested": kI}, none)
	total += u
	b.WriteString("/-- `locked()`: (the answer, `isLocked` afterwards, `requestedNodes` afterwards); `since` = `time.Since(lockTime)`,\n    `dur` = `minimumLockDuration`. The call of `unlock()` is spliced in. -/\n")
	b.WriteString("def lockLocked (since dur : Int) (isLocked : Bool) (requested : Int) : Bool × Bool × Int :=\n" + body + "\n\n")
	body, u = mk("unlock", "unlockFn", "(isLocked, requested)", env{"isLocked": kB, "requested": kI}, none)
	total += u
	b.WriteString("/-- `unlock()`: (`isLocked`, `requestedNodes`) afterwards. -/\n")
	b.WriteString("def lockUnlock (isLocked : Bool) (requested : Int) : Bool × Int :=\n" + body + "\n\n")
	nodesParam := "nodes"
	if fd := meth["lock"]; fd != nil && fd.Type.Params != nil && len(fd.Type.Params.List) == 1 && len(fd.Type.Params.List[0].Names) == 1 {
		nodesParam = fd.Type.Params.List[0].Names[0].Name
	}
	body, u = mk("lock", "lockFn", "(isLocked, requested, lockTime)", env{"isLocked": kB, "requested": kI, "lockTime": kI},
		func(string) map[string][2]string { return map[string][2]string{nodesParam: {"nodes", "I"}} })
	total += u
	b.WriteString("/-- `lock(nodes)`: (`isLocked`, `requestedNodes`, `lockTime`) afterwards; `now` = `time.Now()`. -/\n")
	b.WriteString("def lockLock (nodes now : Int) (isLocked : Bool) (requested lockTime : Int) : Bool × Int × Int :=\n" + body + "\n\n")
	fmt.Fprintf(&b, "def numLockUnknown : Nat := %d\n\nend Esc.Gen\n", total)
	writeIfChanged(filepath.Join(out, "Lock.lean"), b.String())
}

// genTaintTime: k8s.GetToBeRemovedTime (pkg/k8s/taint.go), with the two range constants read from the source
func genTaintTime(repo, out string) {
	f := parse(filepath.Join(repo, "pkg/k8s/taint.go"))
	cs := map[string]string{} // integer constants of the file, a leading minus included
	for _, d := range f.Decls {
		if gd, ok := d.(*ast.GenDecl); ok && gd.Tok == token.CONST {
			for _, sp := range gd.Specs {
				vs := sp.(*ast.ValueSpec)
				for i, n := range vs.Names {
					if i < len(vs.Values) {
						v := strings.ReplaceAll(srcOf(vs.Values[i]), " ", "")
						if _, err := strconv.ParseInt(v, 10, 64); err == nil {
							cs[n.Name] = v
						}
					}
				}
			}
		}
	}
	var b strings.Builder
	b.WriteString("/- GENERATED by /verif/extract from /repo/pkg/k8s/taint.go (GetToBeRemovedTime) — do not edit. -/\nimport Esc.Gen.Arith\nnamespace Esc.Gen\n\n")
	a := &ar{fn: "taintTime"}
	body := "  (true, true, (0 : Int)) -- not found"
	fd := findFunc(f, "GetToBeRemovedTime")
	if fd != nil && fd.Body != nil && fd.Type.Params != nil && len(fd.Type.Params.List) == 1 && len(fd.Type.Params.List[0].Names) == 1 {
		x := fd.Type.Params.List[0].Names[0].Name
		a.atoms = map[string][2]string{}
		for _, c := range []string{"minTaintUnixTime", "maxTaintUnixTime"} {
			if v, ok := cs[c]; ok {
				a.atoms[c] = [2]string{"(" + v + " : Int)", "I"}
			}
		}
		a.callAtoms = map[string][][2]string{
			"GetToBeRemovedTaint(" + x + ")":        {{"", ""}, {"hasEsc", "B"}},
			"strconv.ParseInt(taint.Value, 10, 64)": {{"v", "I"}, {"parseErr", "B"}},
		}
		a.markInert(fd.Body.List, map[string]bool{})
		body = a.block(fd.Body.List, env{}, "  ")
	} else {
		a.unknown++
	}
	b.WriteString("/-- `GetToBeRemovedTime`: (no time is returned, an error is returned, the Unix second of the time returned). `hasEsc`:\n    `GetToBeRemovedTaint` finds the taint; `parseErr` / `v`: what `strconv.ParseInt(value, 10, 64)` returns. -/\n")
	b.WriteString("def taintTime (hasEsc parseErr : Bool) (v : Int) : Bool × Bool × Int :=\n" + body + "\n\n")
	fmt.Fprintf(&b, "def numTaintTimeUnknown : Nat := %d\n\nend Esc.Gen\n", a.unknown)
	writeIfChanged(filepath.Join(out, "TaintTime.lean"), b.String())
}

// genTriggers: Controller.isScaleOnStarve and Controller.scaleOnMaxNodeAge (pkg/controller/controller.go)
func genTriggers(repo, out string) {
	ct := parse(filepath.Join(repo, "pkg/controller/controller.go"))
	var b strings.Builder
	b.WriteString("/- GENERATED by /verif/extract from /repo/pkg/controller/controller.go (the two triggers) — do not edit. -/\nimport Esc.Gen.Arith\nnamespace Esc.Gen\n\n")
	total := 0
	{
		a := &ar{fn: "boolFn", atoms: map[string][2]string{
			"nodeGroup.Opts.ScaleOnStarve":               {"starve", "B"},
			"podRequests.LargestPendingCPU.IsEmpty()":    {"pendCPUEmpty", "B"},
			"podRequests.LargestPendingMemory.IsEmpty()": {"pendMemEmpty", "B"},
			"podRequests.LargestPendingCPU.MilliCPU":     {"pendCPU", "I"},
			"nodeCapacity.LargestAvailableCPU.MilliCPU":  {"availCPU", "I"},
			"podRequests.LargestPendingMemory.Memory":    {"pendMem", "I"},
			"nodeCapacity.LargestAvailableMemory.Memory": {"availMem", "I"},
			"len(untaintedNodes)":                        {"untainted", "I"},
			"nodeGroup.Opts.MaxNodes":                    {"maxEff", "I"},
		}}
		body := "  false -- not found"
		if fd := findFunc(ct, "isScaleOnStarve"); fd != nil && fd.Body != nil {
			a.markInert(fd.Body.List, map[string]bool{})
			body = a.block(fd.Body.List, env{}, "  ")
		} else {
			a.unknown++
		}
		b.WriteString("/-- `isScaleOnStarve`. `pendCPUEmpty` / `pendMemEmpty`: `IsEmpty()` of the largest pending pod by CPU / by memory. -/\n")
		b.WriteString("def isScaleOnStarve (starve pendCPUEmpty pendMemEmpty : Bool) (pendCPU availCPU pendMem availMem untainted maxEff : Int) : Bool :=\n" + body + "\n\n")
		total += a.unknown
	}
	{
		a := &ar{fn: "boolFn", atoms: map[string][2]string{
			"nodeGroup.Opts.MaxNodeAgeDuration()": {"maxAge", "I"}, "len(untaintedNodes)": {"untainted", "I"},
			"nodeGroup.Opts.MinNodes": {"minEff", "I"}, "len(taintedNodes)": {"tainted", "I"},
		}}
		a.existsAtoms = map[string]string{"untaintedNodes|time.Since(_x.CreationTimestamp.Time) > nodeGroup.Opts.MaxNodeAgeDuration()": "anyOlder"}
		body := "  false -- not found"
		if fd := findFunc(ct, "scaleOnMaxNodeAge"); fd != nil && fd.Body != nil {
			a.markInert(fd.Body.List, map[string]bool{})
			body = a.block(fd.Body.List, env{}, "  ")
		} else {
			a.unknown++
		}
		b.WriteString("/-- `scaleOnMaxNodeAge`. `anyOlder`: some untainted node has `time.Since(creation) > MaxNodeAgeDuration()`. -/\n")
		b.WriteString("def scaleOnMaxNodeAge (maxAge untainted minEff tainted : Int) (anyOlder : Bool) : Bool :=\n" + body + "\n\n")
		total += a.unknown
	}
	fmt.Fprintf(&b, "def numTriggersUnknown : Nat := %d\n\nend Esc.Gen\n", total)
	writeIfChanged(filepath.Join(out, "Triggers.lean"), b.String())
}

// genScaleUp: the skeleton of Controller.ScaleUp (pkg/controller/scale_up.go): what it asks of the cloud, when it takes the lock
func genScaleUp(repo, out string) {
	su := parse(filepath.Join(repo, "pkg/controller/scale_up.go"))
	var b strings.Builder
	b.WriteString("/- GENERATED by /verif/extract from /repo/pkg/controller/scale_up.go (ScaleUp) — do not edit. -/\nimport Esc.Gen.Arith\nnamespace Esc.Gen\n\n")
	a := &ar{fn: "scaleUpFn"}
	body := "  (0, true, false, 0, false, 0) -- not found"
	if fd := findFunc(su, "ScaleUp"); fd != nil && fd.Body != nil {
		a.atoms = map[string][2]string{}
		a.fieldVars = map[string]string{"opts.nodesDelta": "nodesDelta"}
		a.callAtoms = map[string][][2]string{
			"c.scaleUpUntaint(opts)":                {{"untaintedIn", "I"}, {"untaintErr", "B"}},
			"c.scaleUpCloudProviderNodeGroup(opts)": {{"addedIn", "I"}, {"addErr", "B"}},
		}
		a.callPre = map[string]string{"c.scaleUpCloudProviderNodeGroup(opts)": "let askedCloud_ : Bool := true\nlet asked_ : Int := nodesDelta"}
		a.stmtAtoms = map[string]string{"opts.nodeGroup.scaleUpLock.lock(added)": "let locked_ : Bool := true\nlet lockedWith_ : Int := added"}
		a.markInert(fd.Body.List, map[string]bool{})
		body = "  let nodesDelta : Int := want\n  let askedCloud_ : Bool := false\n  let asked_ : Int := 0\n  let locked_ : Bool := false\n  let lockedWith_ : Int := 0\n" +
			a.block(fd.Body.List, env{"nodesDelta": kI}, "  ")
	} else {
		a.unknown++
	}
	b.WriteString("/-- `ScaleUp`: (value returned, an error is returned, `scaleUpCloudProviderNodeGroup` was called, with which `nodesDelta`, the\n    scale-up lock was taken, with how many nodes). `untaintedIn` / `untaintErr`: what `scaleUpUntaint` returned; `addedIn` / `addErr`:\n    what `scaleUpCloudProviderNodeGroup` returned. -/\n")
	b.WriteString("def scaleUp (want untaintedIn : Int) (untaintErr : Bool) (addedIn : Int) (addErr : Bool) : Int × Bool × Bool × Int × Bool × Int :=\n" + body + "\n\n")
	fmt.Fprintf(&b, "def numScaleUpUnknown : Nat := %d\n\nend Esc.Gen\n", a.unknown)
	writeIfChanged(filepath.Join(out, "ScaleUp.lean"), b.String())
}

// genTryDelete: the skeleton of TryDeleteNodes (pkg/controller/scale_down.go): the order of the cloud call and the Kubernetes call
func genTryDelete(repo, out string) {
	sd := parse(filepath.Join(repo, "pkg/controller/scale_down.go"))
	var b strings.Builder
	b.WriteString("/- GENERATED by /verif/extract from /repo/pkg/controller/scale_down.go (TryDeleteNodes) — do not edit. -/\nimport Esc.Gen.Arith\nnamespace Esc.Gen\n\n")
	a := &ar{fn: "tryDeleteFn"}
	body := "  (0, true, false, false) -- not found"
	if fd := findFunc(sd, "TryDeleteNodes"); fd != nil && fd.Body != nil {
		a.atoms = map[string][2]string{"len(toBeDeleted)": {"count", "I"}}
		a.callAtoms = map[string][][2]string{
			"c.cloudProvider.GetNodeGroup(opts.nodeGroup.Opts.CloudProviderGroupName)": {{"", ""}, {"groupFound", "B"}},
			"cloudProviderNodeGroup.DeleteNodes(toBeDeleted...)":                       {{"cloudErr", "B"}},
			"k8s.DeleteNodes(toBeDeleted, c.Client)":                                   {{"k8sErr", "B"}},
		}
		a.callPre = map[string]string{
			"cloudProviderNodeGroup.DeleteNodes(toBeDeleted...)": "let cloudCalled_ : Bool := true",
			"k8s.DeleteNodes(toBeDeleted, c.Client)":             "let k8sCalled_ : Bool := true",
		}
		a.markInert(fd.Body.List, map[string]bool{})
		body = "  let cloudCalled_ : Bool := false\n  let k8sCalled_ : Bool := false\n" + a.block(fd.Body.List, env{}, "  ")
	} else {
		a.unknown++
	}
	b.WriteString("/-- `TryDeleteNodes` for `count` candidates: (value returned, an error is returned, the cloud's `DeleteNodes` was called, the\n    Kubernetes `DeleteNodes` was called). `groupFound`: the cloud provider knows the group; `cloudErr` / `k8sErr`: the two calls\n    returned an error. -/\n")
	b.WriteString("def tryDelete (count : Int) (groupFound cloudErr k8sErr : Bool) : Int × Bool × Bool × Bool :=\n" + body + "\n\n")
	fmt.Fprintf(&b, "def numTryDeleteUnknown : Nat := %d\n\nend Esc.Gen\n", a.unknown)
	writeIfChanged(filepath.Join(out, "TryDelete.lean"), b.String())
}

// funcLitOf: the function literal a constructor like NewPodDefaultFilterFunc returns (`return func(x *T) bool { … }`)
func funcLitOf(fd *ast.FuncDecl) *ast.FuncLit {
	if fd == nil || fd.Body == nil || len(fd.Body.List) != 1 {
		return nil
	}
	r, ok := fd.Body.List[0].(*ast.ReturnStmt)
	if !ok || len(r.Results) != 1 {
		return nil
	}
	fl, _ := r.Results[0].(*ast.FuncLit)
	return fl
}

const pinnedAffinityLoop = `for _, term := range unwrapNodeSelectorTerms(pod) { for _, expression := range term.MatchExpressions { if expression.Key != labelKey { continue } if expression.Operator == v1.NodeSelectorOpIn { for _, value := range expression.Values { if value == labelValue { return true } } } } }`

// genFilters: the three attribution filters of pkg/controller/node_group.go
func genFilters(repo, out string) {
	ng := parse(filepath.Join(repo, "pkg/controller/node_group.go"))
	var b strings.Builder
	b.WriteString("/- GENERATED by /verif/extract from /repo/pkg/controller/node_group.go (the attribution filters) — do not edit. -/\nimport Esc.Gen.Arith\nnamespace Esc.Gen\n\n")
	total := 0
	one := func(ctor, leanName, params, doc string, atoms map[string][2]string, calls map[string][][2]string, exists map[string]string) {
		a := &ar{fn: "boolFn", atoms: atoms, callAtoms: calls, existsAtoms: exists}
		body := "  false -- not found"
		if fl := funcLitOf(findFunc(ng, ctor)); fl != nil {
			a.markInert(fl.Body.List, map[string]bool{})
			body = a.block(fl.Body.List, env{}, "  ")
		} else {
			a.unknown++
		}
		b.WriteString(doc + "def " + leanName + " " + params + " : Bool :=\n" + body + "\n\n")
		total += a.unknown
	}
	one("NewPodDefaultFilterFunc", "podDefaultFilter", "(daemon static : Bool) (selectorLen : Int) (affNil nodeAffNil podAffNil antiAffNil : Bool)",
		"/-- `NewPodDefaultFilterFunc`. `daemon` / `static`: `k8s.PodIsDaemonSet` / `k8s.PodIsStatic`; `affNil` …: the affinity pointers are nil. -/\n",
		map[string][2]string{
			"k8s.PodIsDaemonSet(pod)": {"daemon", "B"}, "k8s.PodIsStatic(pod)": {"static", "B"}, "len(pod.Spec.NodeSelector)": {"selectorLen", "I"},
			"pod.Spec.Affinity == nil": {"affNil", "B"}, "pod.Spec.Affinity.NodeAffinity == nil": {"nodeAffNil", "B"},
			"pod.Spec.Affinity.PodAffinity == nil": {"podAffNil", "B"}, "pod.Spec.Affinity.PodAntiAffinity == nil": {"antiAffNil", "B"},
		}, nil, nil)
	one("NewNodeLabelFilterFunc", "nodeLabelFilter", "(hasKey valueEq : Bool)",
		"/-- `NewNodeLabelFilterFunc`. `hasKey`: the node has the label key; `valueEq`: its value equals the group's. -/\n",
		map[string][2]string{"value == labelValue": {"valueEq", "B"}},
		map[string][][2]string{"node.Labels[labelKey]": {{"", ""}, {"hasKey", "B"}}}, nil)
	one("NewPodAffinityFilterFunc", "podAffinityFilter", "(daemon selHasKey selValueEq affinityIn : Bool)",
		"/-- `NewPodAffinityFilterFunc`. `selHasKey` / `selValueEq`: the nodeSelector has the group's key / with the group's value;\n    `affinityIn`: the loop over the required node-affinity terms — which is, textually, the loop of the pinned tree: some match\n    expression on the group's key with operator In lists the group's value — finds one. -/\n",
		map[string][2]string{"k8s.PodIsDaemonSet(pod)": {"daemon", "B"}, "value == labelValue": {"selValueEq", "B"}},
		map[string][][2]string{"pod.Spec.NodeSelector[labelKey]": {{"", ""}, {"selHasKey", "B"}}},
		map[string]string{"loop|" + pinnedAffinityLoop: "affinityIn"})
	fmt.Fprintf(&b, "def numFiltersUnknown : Nat := %d\n\nend Esc.Gen\n", total)
	writeIfChanged(filepath.Join(out, "Filters.lean"), b.String())
}

const pinnedTaintAppend = `updatedNode.Spec.Taints = append(updatedNode.Spec.Taints, apiv1.Taint{ Key: ToBeRemovedByAutoscalerKey, Value: fmt.Sprint(time.Now().Unix()), Effect: effect, })`

// genAddTaint: the skeleton of k8s.AddToBeRemovedTaint (pkg/k8s/taint.go)
func genAddTaint(repo, out string) {
	f := parse(filepath.Join(repo, "pkg/k8s/taint.go"))
	var b strings.Builder
	b.WriteString("/- GENERATED by /verif/extract from /repo/pkg/k8s/taint.go (AddToBeRemovedTaint) — do not edit. -/\nimport Esc.Gen.Arith\nnamespace Esc.Gen\n\n")
	a := &ar{fn: "taintOpFn"}
	body := "  (true, false, 0) -- not found"
	if fd := findFunc(f, "AddToBeRemovedTaint"); fd != nil && fd.Body != nil {
		a.atoms = map[string][2]string{"apiv1.TaintEffectNoSchedule": {"(0 : Int)", "I"}, "taintEffect": {"(1 : Int)", "I"}, "len(taintEffect)": {"effectLen", "I"}}
		a.callAtoms = map[string][][2]string{
			"client.CoreV1().Nodes().Get(context.TODO(), node.Name, metav1.GetOptions{})":         {{"getNil", "N"}, {"getErr", "B"}},
			"client.CoreV1().Nodes().Update(context.TODO(), updatedNode, metav1.UpdateOptions{})": {{"updNil", "N"}, {"updErr", "B"}},
		}
		a.callPre = map[string]string{"client.CoreV1().Nodes().Update(context.TODO(), updatedNode, metav1.UpdateOptions{})": "let updateCalled_ : Bool := true"}
		a.containsAtoms = map[string]string{"updatedNode.Spec.Taints|_x.Key == ToBeRemovedByAutoscalerKey": "hasEsc"}
		a.assignAtoms = map[string]string{pinnedTaintAppend: "let appendedEffect_ : Int := effect"}
		a.markInert(fd.Body.List, map[string]bool{})
		body = "  let updateCalled_ : Bool := false\n  let appendedEffect_ : Int := (-1)\n" + a.block(fd.Body.List, env{}, "  ")
	} else {
		a.unknown++
	}
	b.WriteString("/-- `AddToBeRemovedTaint`: (an error is returned, the UPDATE was sent, the effect of the taint appended before it: 0 = NoSchedule,\n    1 = the configured effect, −1 = nothing appended). `getNil` / `getErr`, `updNil` / `updErr`: what GET and UPDATE returned; `hasEsc`: the\n    fetched copy carries a taint with the escalator key; `effectLen`: length of the configured effect. The appended taint is, textually,\n    the pinned one: escalator key, `fmt.Sprint(time.Now().Unix())`, that effect. -/\n")
	b.WriteString("def addTaint (getNil getErr hasEsc : Bool) (effectLen : Int) (updNil updErr : Bool) : Bool × Bool × Int :=\n" + body + "\n\n")
	fmt.Fprintf(&b, "def numAddTaintUnknown : Nat := %d\n\nend Esc.Gen\n", a.unknown)
	writeIfChanged(filepath.Join(out, "AddTaint.lean"), b.String())
}

const pinnedSwapDelete1 = `updatedNode.Spec.Taints[i] = updatedNode.Spec.Taints[len(updatedNode.Spec.Taints)-1]`
const pinnedSwapDelete2 = `updatedNode.Spec.Taints = updatedNode.Spec.Taints[:len(updatedNode.Spec.Taints)-1]`

// genDelTaint: the skeleton of k8s.DeleteToBeRemovedTaint (pkg/k8s/taint.go)
func genDelTaint(repo, out string) {
	f := parse(filepath.Join(repo, "pkg/k8s/taint.go"))
	var b strings.Builder
	b.WriteString("/- GENERATED by /verif/extract from /repo/pkg/k8s/taint.go (DeleteToBeRemovedTaint) — do not edit. -/\nimport Esc.Gen.Arith\nnamespace Esc.Gen\n\n")
	a := &ar{fn: "taintOpFn"}
	body := "  (true, false, 0) -- not found"
	if fd := findFunc(f, "DeleteToBeRemovedTaint"); fd != nil && fd.Body != nil {
		a.atoms = map[string][2]string{}
		a.callAtoms = map[string][][2]string{
			"client.CoreV1().Nodes().Get(context.TODO(), node.Name, metav1.GetOptions{})":         {{"getNil", "N"}, {"getErr", "B"}},
			"client.CoreV1().Nodes().Update(context.TODO(), updatedNode, metav1.UpdateOptions{})": {{"updNil", "N"}, {"updErr", "B"}},
		}
		a.callPre = map[string]string{"client.CoreV1().Nodes().Update(context.TODO(), updatedNode, metav1.UpdateOptions{})": "let updateCalled_ : Bool := true"}
		a.findAtoms = map[string]string{"updatedNode.Spec.Taints|_x.Key == ToBeRemovedByAutoscalerKey": "hasEsc"}
		// the two statements of "delete without preserving order", word for word: together they set appendedEffect_ (here: the
		// number of steps of the removal seen) to 2
		a.assignAtoms = map[string]string{pinnedSwapDelete1: "let appendedEffect_ : Int := (appendedEffect_ + 1)", pinnedSwapDelete2: "let appendedEffect_ : Int := (appendedEffect_ + 1)"}
		a.markInert(fd.Body.List, map[string]bool{})
		body = "  let updateCalled_ : Bool := false\n  let appendedEffect_ : Int := 0\n" + a.block(fd.Body.List, env{}, "  ")
	} else {
		a.unknown++
	}
	b.WriteString("/-- `DeleteToBeRemovedTaint`: (an error is returned, the UPDATE was sent, how many of the two statements of the pinned\n    \"delete the first element with the escalator key by moving the last one into its place\" were seen in front of it). `hasEsc`:\n    the fetched copy carries a taint with the escalator key. -/\n")
	b.WriteString("def delTaint (getNil getErr hasEsc updNil updErr : Bool) : Bool × Bool × Int :=\n" + body + "\n\n")
	fmt.Fprintf(&b, "def numDelTaintUnknown : Nat := %d\n\nend Esc.Gen\n", a.unknown)
	writeIfChanged(filepath.Join(out, "DelTaint.lean"), b.String())
}

// genLoops: one iteration of the loops of taintOldestN (scale_down.go) and untaintNewestN (scale_up.go) as step functions on the
// number of nodes done so far
func genLoops(repo, out string) {
	sd := parse(filepath.Join(repo, "pkg/controller/scale_down.go"))
	su := parse(filepath.Join(repo, "pkg/controller/scale_up.go"))
	var b strings.Builder
	b.WriteString("/- GENERATED by /verif/extract from /repo/pkg/controller/scale_down.go (taintOldestN) and scale_up.go (untaintNewestN) — do not edit. -/\nimport Esc.Gen.Arith\nnamespace Esc.Gen\n\n")
	total := 0
	step := func(f *ast.File, fn, list, leanName, params, doc string, atoms map[string][2]string, calls map[string][][2]string, pre map[string]string, assigns map[string]string, contains map[string]string) {
		a := &ar{fn: "loopStep", endExpr: "(false, count, attempted_)", atoms: atoms, callAtoms: calls, callPre: pre, assignAtoms: assigns, containsAtoms: contains}
		body := "  (true, count, false) -- loop not found"
		fd := findFunc(f, fn)
		var lb []ast.Stmt
		if fd != nil && fd.Body != nil {
			for _, s := range fd.Body.List {
				if rs, ok := s.(*ast.RangeStmt); ok && srcOf(rs.X) == "sorted" && rs.Value != nil && srcOf(rs.Value) == "bundle" {
					lb = rs.Body.List
				}
			}
		}
		if lb != nil {
			a.markInert(lb, map[string]bool{list: true})
			body = "  let attempted_ : Bool := false\n" + a.block(lb, env{"count": kI, "n": kI}, "  ")
		} else {
			a.unknown++
		}
		b.WriteString(doc + "def " + leanName + " " + params + " : Bool × Int × Bool :=\n" + body + "\n\n")
		total += a.unknown
	}
	step(sd, "taintOldestN", "taintedIndices", "taintStep", "(count n : Int) (dry addErr : Bool)",
		"/-- One iteration of the loop of `taintOldestN`: (the loop stops here, nodes tainted so far afterwards, the node was attempted).\n    `count` = `len(taintedIndices)`, `addErr`: `AddToBeRemovedTaint` returned an error. -/\n",
		map[string][2]string{"len(taintedIndices)": {"count", "I"}, "c.dryMode(nodeGroup)": {"dry", "B"}},
		map[string][][2]string{"k8s.AddToBeRemovedTaint(bundle.node, c.Client, nodeGroup.Opts.TaintEffect)": {{"", ""}, {"addErr", "B"}}},
		map[string]string{"k8s.AddToBeRemovedTaint(bundle.node, c.Client, nodeGroup.Opts.TaintEffect)": "let attempted_ : Bool := true"},
		map[string]string{
			"taintedIndices = append(taintedIndices, bundle.index)":                     "let count : Int := (count + 1)",
			"bundle.node = updatedNode":                                                 "",
			"nodeGroup.taintTracker = append(nodeGroup.taintTracker, bundle.node.Name)": "let attempted_ : Bool := true",
		}, nil)
	step(su, "untaintNewestN", "untaintedIndices", "untaintStep", "(count n : Int) (dry hasEsc delErr inTracker : Bool)",
		"/-- One iteration of the loop of `untaintNewestN`. `hasEsc`: `GetToBeRemovedTaint` finds the taint on the listed copy; `delErr`:\n    `DeleteToBeRemovedTaint` returned an error; `inTracker`: the dry-mode tracker contains the node's name. -/\n",
		map[string][2]string{"len(untaintedIndices)": {"count", "I"}, "c.dryMode(nodeGroup)": {"dry", "B"}, "deleteIndex != -1": {"inTracker", "B"}},
		map[string][][2]string{
			"k8s.GetToBeRemovedTaint(bundle.node)":              {{"", ""}, {"hasEsc", "B"}},
			"k8s.DeleteToBeRemovedTaint(bundle.node, c.Client)": {{"", ""}, {"delErr", "B"}},
		},
		map[string]string{"k8s.DeleteToBeRemovedTaint(bundle.node, c.Client)": "let attempted_ : Bool := true"},
		map[string]string{
			"untaintedIndices = append(untaintedIndices, bundle.index)": "let count : Int := (count + 1)",
			"bundle.node = updatedNode":                                 "",
			"nodeGroup.taintTracker = append(nodeGroup.taintTracker[:deleteIndex], nodeGroup.taintTracker[deleteIndex+1:]...)": "let attempted_ : Bool := true",
		}, nil)
	fmt.Fprintf(&b, "def numLoopsUnknown : Nat := %d\n\nend Esc.Gen\n", total)
	writeIfChanged(filepath.Join(out, "Loops.lean"), b.String())
}

func genReap(repo, out string) {
	sd := parse(filepath.Join(repo, "pkg/controller/scale_down.go"))
	var b strings.Builder
	b.WriteString("/- GENERATED by /verif/extract from /repo/pkg/controller/scale_down.go — do not edit. -/\nimport Esc.Gen.Arith\nnamespace Esc.Gen\n\n")
	total := 0
	loop := func(fnName, src, leanName, params, doc string, atoms func(x string) map[string][2]string, calls func(x string) map[string][][2]string) {
		a := &ar{fn: "loopBody", appendTo: "toBeDeleted"}
		body := "  false -- loop not found"
		pre, x, lb := rangeOver(findFunc(sd, fnName), src)
		if lb != nil {
			a.atoms, a.callAtoms = atoms(x), calls(x)
			all := append(append([]ast.Stmt{}, pre...), lb...)
			a.markInert(all, map[string]bool{"toBeDeleted": true})
			body = "  let appended_ : Bool := false\n" + a.block(all, env{}, "  ")
		} else {
			a.unknown++
		}
		b.WriteString(doc + "def " + leanName + " " + params + " : Bool :=\n" + body + "\n\n")
		total += a.unknown
	}
	loop("TryRemoveTaintedNodes", "opts.taintedNodes", "reapAppend", "(prot timeNil timeErr empty dry : Bool) (age soft hard : Int)",
		"/-- One iteration of the loop of `TryRemoveTaintedNodes`: is the candidate appended to `toBeDeleted`? `prot`: `safeFromDeletion`\n    says so; `timeNil` / `timeErr`: what `GetToBeRemovedTime` returned; `age`: `now.Sub(*taintedTime)`; `empty`: `k8s.NodeEmpty`. -/\n",
		func(x string) map[string][2]string {
			return map[string][2]string{
				"now.Sub(*taintedTime)": {"age", "I"}, "opts.nodeGroup.Opts.SoftDeleteGracePeriodDuration()": {"soft", "I"},
				"opts.nodeGroup.Opts.HardDeleteGracePeriodDuration()":  {"hard", "I"},
				"k8s.NodeEmpty(" + x + ", opts.nodeGroup.NodeInfoMap)": {"empty", "B"}, "c.dryMode(opts.nodeGroup)": {"dry", "B"},
			}
		},
		func(x string) map[string][][2]string {
			return map[string][][2]string{
				"safeFromDeletion(" + x + ")":       {{"", ""}, {"prot", "B"}},
				"k8s.GetToBeRemovedTime(" + x + ")": {{"timeNil", "N"}, {"timeErr", "B"}},
			}
		})
	loop("TryRemoveForceTaintedNodes", "opts.forceTaintedNodes", "forceAppend", "(empty dry : Bool)",
		"/-- One iteration of the loop of `TryRemoveForceTaintedNodes`. -/\n",
		func(x string) map[string][2]string {
			return map[string][2]string{
				"k8s.NodeEmpty(" + x + ", opts.nodeGroup.NodeInfoMap)": {"empty", "B"}, "c.dryMode(opts.nodeGroup)": {"dry", "B"},
			}
		},
		func(x string) map[string][][2]string { return map[string][][2]string{} })

	// the clamp of scaleDownTaint
	{
		a := &ar{fn: "taintClamp", atoms: map[string][2]string{
			"opts.nodesDelta": {"want", "I"}, "len(opts.untaintedNodes)": {"untainted", "I"}, "opts.nodeGroup.Opts.MinNodes": {"minEff", "I"},
		}}
		body := "  (0, true) -- not found"
		fd := findFunc(sd, "scaleDownTaint")
		var ss []ast.Stmt
		if fd != nil && fd.Body != nil {
			ss = stmtsBetween(fd.Body.List, "nodesToRemove", "tainted")
		}
		if ss != nil {
			ss = append(append([]ast.Stmt{}, ss[:len(ss)-1]...), &ast.ReturnStmt{Results: []ast.Expr{ast.NewIdent("nodesToRemove"), ast.NewIdent("nil")}})
			a.markInert(ss, map[string]bool{"nodesToRemove": true})
			body = a.block(ss, env{}, "  ")
		} else {
			a.unknown++
		}
		b.WriteString("/-- Head of `scaleDownTaint`: (number of nodes `taintOldestN` is asked to taint, the function returns an error instead). -/\n")
		b.WriteString("def taintClamp (want untainted minEff : Int) : Int × Bool :=\n" + body + "\n\n")
		total += a.unknown
	}
	fmt.Fprintf(&b, "def numReapUnknown : Nat := %d\n\nend Esc.Gen\n", total)
	writeIfChanged(filepath.Join(out, "Reap.lean"), b.String())
}
